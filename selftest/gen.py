#!/usr/bin/env python3
"""Seeded variants for the checker self-test. Each V(...) is one edit (exact, unique text
replacement in one file of /repo) analysed by `sa selftest` through an in-memory overlay.
expect = rule id (prefix) that must report a violation, or "none" for a neutral refactor that
every rule of the property must stay silent on. Run this file to regenerate variants.json."""
import json, os
VARS = []
def V(id, prop, file, old, new, expect, note=""):
    VARS.append(dict(id=id, property=prop, file=file, old=old, new=new, expect=expect, note=note))

COMMIT = "txnkv/transaction/commit.go"
TPC = "txnkv/transaction/2pc.go"
PREW = "txnkv/transaction/prewrite.go"

# ---------------------------------------------------------------- C03
V("c03-drop-setundetermined", "C03", COMMIT,
  "\t\t\tc.setUndeterminedErr(errors.WithStack(sender.GetRPCError()))\n", "\t\t\t_ = sender.GetRPCError()\n", "C03.R1")
V("c03-set-after-err-return", "C03", COMMIT,
  """		if batch.isPrimary && sender.GetRPCError() != nil && !c.isAsyncCommit() {
			c.setUndeterminedErr(errors.WithStack(sender.GetRPCError()))
		}

		// Unexpected error occurs, return it.
		if err != nil {
			if trace.IsCategoryEnabled(trace.CategoryTxn2PC) {
				trace.TraceEvent(bo.GetCtx(), trace.CategoryTxn2PC, "commit.batch.result",
					zap.Uint64("regionID", batch.region.GetID()),
					zap.Bool("success", false))
			}
			return err
		}
""",
  """		// Unexpected error occurs, return it.
		if err != nil {
			if trace.IsCategoryEnabled(trace.CategoryTxn2PC) {
				trace.TraceEvent(bo.GetCtx(), trace.CategoryTxn2PC, "commit.batch.result",
					zap.Uint64("regionID", batch.region.GetID()),
					zap.Bool("success", false))
			}
			return err
		}
		if batch.isPrimary && sender.GetRPCError() != nil && !c.isAsyncCommit() {
			c.setUndeterminedErr(errors.WithStack(sender.GetRPCError()))
		}
""", "C03.R1")
V("c03-clear-before-region-check", "C03", COMMIT,
  """		regionErr, err := resp.GetRegionError()
		if err != nil {
			return err
		}
		if regionErr != nil {
			if regionErr.GetUndeterminedResult()""",
  """		if batch.isPrimary && !c.isAsyncCommit() {
			c.setUndeterminedErr(nil)
		}
		regionErr, err := resp.GetRegionError()
		if err != nil {
			return err
		}
		if regionErr != nil {
			if regionErr.GetUndeterminedResult()""", "C03.R2")
V("c03-cleanup-ignores-undetermined", "C03", TPC,
  "\t\t\tif !committed && !undetermined {\n", "\t\t\t_ = undetermined\n\t\t\tif !committed {\n", "C03.R3")
V("c03-cleanup-ignores-committed", "C03", TPC,
  "\t\t\tif !committed && !undetermined {\n", "\t\t\t_ = committed\n\t\t\tif !undetermined {\n", "C03.R3")
V("c03-onepc-cleanup-unguarded", "C03", TPC,
  """			if err != nil {
				if c.getUndeterminedErr() == nil {
					c.cleanup(ctx)
				}
				metrics.OnePCTxnCounterError.Inc()""",
  """			if err != nil {
				c.cleanup(ctx)
				metrics.OnePCTxnCounterError.Inc()""", "C03.R3")
V("c03-execute-returns-plain-err", "C03", TPC,
  """				zap.Uint64("txnStartTS", c.startTS))
			return errors.WithStack(tikverr.ErrResultUndetermined)
		}
	}

	commitDetail.PrewriteTime""",
  """				zap.Uint64("txnStartTS", c.startTS))
			return err
		}
	}

	commitDetail.PrewriteTime""", "C03.R4")
V("c03-committxn-nil-when-not-committed", "C03", TPC,
  """		if !c.mu.committed {
			logutil.Logger(ctx).Debug("2PC failed on commit",""",
  """		if !c.mu.committed && err != nil && c.getUndeterminedErr() == nil {
			logutil.Logger(ctx).Debug("2PC failed on commit",""", "C03.R4")
V("c03-drop-skips-onepc", "C03", PREW,
  "if (handler.committer.isAsyncCommit() || handler.committer.isOnePC()) && handler.sender.GetRPCError() != nil",
  "if handler.committer.isAsyncCommit() && handler.sender.GetRPCError() != nil", "C03.R5")
V("c03-regionerr-undetermined-async-only", "C03", PREW,
  "if regionErr.GetUndeterminedResult() != nil && (handler.committer.isAsyncCommit() || handler.committer.isOnePC()) {",
  "if regionErr.GetUndeterminedResult() != nil && handler.committer.isAsyncCommit() {", "C03.R5")
V("c03-commit-undetermined-result-dropped", "C03", COMMIT,
  "if regionErr.GetUndeterminedResult() != nil && !c.isAsyncCommit() && batch.isPrimary {",
  "if regionErr.GetUndeterminedResult() != nil && c.isAsyncCommit() && batch.isPrimary {", "C03.R5")
V("c03-expired-as-success", "C03", COMMIT,
  """				// Update the commitTS of the request and retry.
				req.Commit().CommitVersion = commitTS
				continue
""",
  """				// Update the commitTS of the request and retry.
				req.Commit().CommitVersion = commitTS
				break
""", "C03.R6")
V("c03-committed-before-keyerr", "C03", COMMIT,
  """		if keyErr := commitResp.GetError(); keyErr != nil {
			if rejected := keyErr.GetCommitTsExpired(); rejected != nil {""",
  """		if batch.isPrimary {
			c.mu.Lock()
			c.mu.committed = true
			c.mu.Unlock()
		}
		if keyErr := commitResp.GetError(); keyErr != nil {
			if rejected := keyErr.GetCommitTsExpired(); rejected != nil {""", "C03.R7")
# neutral refactors
V("c03-n-bool-binding", "C03", COMMIT,
  """		if batch.isPrimary && sender.GetRPCError() != nil && !c.isAsyncCommit() {
			c.setUndeterminedErr(errors.WithStack(sender.GetRPCError()))
		}
""",
  """		rpcErr := sender.GetRPCError()
		needMark := batch.isPrimary && !c.isAsyncCommit()
		if needMark {
			if rpcErr != nil {
				c.setUndeterminedErr(errors.WithStack(rpcErr))
			}
		}
""", "none")
V("c03-n-log-line", "C03", TPC,
  "\t\t\tif !committed && !undetermined {\n\t\t\t\tc.cleanup(ctx)\n",
  "\t\t\tif !committed && !undetermined {\n\t\t\t\tlogutil.Logger(ctx).Debug(\"cleanup\")\n\t\t\t\tc.cleanup(ctx)\n", "none")

# ---------------------------------------------------------------- C04
V("c04-primarylock-first-key", "C04", PREW, "\t\tPrimaryLock:            c.primary(),\n", "\t\tPrimaryLock:            m.GetKey(0),\n", "C04.R1")
V("c04-secondaries-every-batch", "C04", PREW,
  "\t\tif batch.isPrimary {\n\t\t\treq.Secondaries = c.asyncSecondaries()\n\t\t}\n", "\t\treq.Secondaries = c.asyncSecondaries()\n", "C04.R1")
V("c04-tryonepc-unguarded", "C04", PREW, "\tif c.isOnePC() {\n\t\treq.TryOnePc = true\n\t}\n", "\treq.TryOnePc = c.txn.enable1PC\n", "C04.R1")
V("c04-skip-check-for-pessimistic", "C04", PREW,
  "\t\tif m.IsPessimisticLock(i) {\n\t\t\tpessimisticActions[i] = kvrpcpb.PrewriteRequest_DO_PESSIMISTIC_CHECK\n\t\t} else if m.NeedConstraintCheckInPrewrite(i) {",
  "\t\tif m.IsPessimisticLock(i) && c.forUpdateTS > 0 {\n\t\t\tpessimisticActions[i] = kvrpcpb.PrewriteRequest_DO_PESSIMISTIC_CHECK\n\t\t} else if m.NeedConstraintCheckInPrewrite(i) {", "C04.R1c")
V("c04-assert-swapped", "C04", PREW,
  "\t\tif m.IsAssertExists(i) {\n\t\t\tassertion = kvrpcpb.Assertion_Exist\n\t\t}\n\t\tif m.IsAssertNotExist(i) {\n\t\t\tassertion = kvrpcpb.Assertion_NotExist",
  "\t\tif m.IsAssertExists(i) {\n\t\t\tassertion = kvrpcpb.Assertion_NotExist\n\t\t}\n\t\tif m.IsAssertNotExist(i) {\n\t\t\tassertion = kvrpcpb.Assertion_Exist", "C04.R1c")
V("c04-secondaries-skip-locks", "C04", TPC,
  "if bytes.Equal(k, c.primary()) || c.mutations.GetOp(i) == kvrpcpb.Op_CheckNotExists {",
  "if bytes.Equal(k, c.primary()) || c.mutations.GetOp(i) == kvrpcpb.Op_CheckNotExists || c.mutations.GetOp(i) == kvrpcpb.Op_Lock {", "C04.R1b")
V("c04-secondaries-keep-cne", "C04", TPC,
  "if bytes.Equal(k, c.primary()) || c.mutations.GetOp(i) == kvrpcpb.Op_CheckNotExists {",
  "if bytes.Equal(k, c.primary()) {", "C04.R1b")
V("c04-fallback-after-dispatch", "C04", TPC,
  "\tc.checkOnePCFallBack(action, len(batchBuilder.allBatches()))\n\n\tvar err error\n", "\tvar err error\n\tdefer c.checkOnePCFallBack(action, len(batchBuilder.allBatches()))\n", "C04.R2")
V("c04-fallback-threshold", "C04", TPC, "\t\tif batchCount > 1 {\n\t\t\tc.setOnePC(false)", "\t\tif batchCount > 2 {\n\t\t\tc.setOnePC(false)", "C04.R2")
V("c04-commit-keys-all", "C04", COMMIT, "\t\tKeys:           keys,\n", "\t\tKeys:           c.mutations.GetKeys(),\n", "C04.R3")
V("c04-commit-version-min", "C04", COMMIT, "\t\tCommitVersion:  c.commitTS,\n", "\t\tCommitVersion:  c.minCommitTSMgr.get(),\n", "C04.R3")
V("c04-commit-despite-prewrite-error", "C04", TPC,
  """	if err != nil {
		logutil.Logger(ctx).Debug("2PC failed on prewrite",
			zap.Error(err),
			zap.Uint64("txnStartTS", c.startTS))
		return err
	}
""", """	if err != nil && !c.isAsyncCommit() {
		logutil.Logger(ctx).Debug("2PC failed on prewrite",
			zap.Error(err),
			zap.Uint64("txnStartTS", c.startTS))
		return err
	}
""", "C04.R4")
V("c04-heartbeat-ttl-no-uptime", "C04", TPC, "\t\t\tnewTTL := uptime + atomic.LoadUint64(&ManagedLockTTL)\n", "\t\t\tnewTTL := atomic.LoadUint64(&ManagedLockTTL)\n\t\t\t_ = uptime\n", "C04.R5")
V("c04-current-ts-always-max", "C04", "txnkv/txnlock/lock_resolver.go",
  "\tif l.TTL == 0 {\n\t\t// NOTE: l.TTL = 0 is a special protocol!!!", "\tif l.TTL == 0 || l.IsPessimistic() {\n\t\t// NOTE: l.TTL = 0 is a special protocol!!!", "C04.R6")
V("c04-rollback-if-not-exist-initially", "C04", "txnkv/txnlock/lock_resolver.go", "\trollbackIfNotExist := false\n", "\trollbackIfNotExist := l.IsPessimistic()\n", "C04.R6")
V("c04-expiry-lt", "C04", "txnkv/txnlock/lock_resolver.go",
  "if lr.store.GetOracle().UntilExpired(l.TxnID, l.TTL, &oracle.Option{TxnScope: oracle.GlobalTxnScope}) <= 0 {",
  "if lr.store.GetOracle().UntilExpired(l.TxnID, l.TTL, &oracle.Option{TxnScope: oracle.GlobalTxnScope}) <= 1000 {", "C04.R6")
V("c04-n-extract-helper", "C04", PREW, "\tif c.isOnePC() {\n\t\treq.TryOnePc = true\n\t}\n", "\tonePC := c.isOnePC()\n\tif onePC {\n\t\treq.TryOnePc = true\n\t}\n", "none")

# ---------------------------------------------------------------- C20
BO = "config/retry/backoff.go"
BOC = "config/retry/config.go"
V("c20-budget-gt", "C20", BO, "maxBackoffTimeExceeded := (b.totalSleep - b.excludedSleep) >= b.maxSleep", "maxBackoffTimeExceeded := (b.totalSleep - b.excludedSleep) > b.maxSleep+b.maxSleep", "C20.R1")
V("c20-budget-ignores-excluded", "C20", BO, "maxBackoffTimeExceeded := (b.totalSleep - b.excludedSleep) >= b.maxSleep", "maxBackoffTimeExceeded := b.totalSleep >= b.maxSleep+b.excludedSleep+b.excludedSleep", "C20.R1")
V("c20-noop-sleeps", "C20", BO, "\tif b.noop {\n\t\treturn err\n\t}\n", "", "C20.R1")
V("c20-total-only-non-excluded", "C20", BO,
  "\tb.totalSleep += realSleep\n\tif _, ok := isSleepExcluded[cfg.name]; ok {\n\t\tb.excludedSleep += realSleep\n\t}\n",
  "\tif _, ok := isSleepExcluded[cfg.name]; ok {\n\t\tb.excludedSleep += realSleep\n\t} else {\n\t\tb.totalSleep += realSleep\n\t}\n", "C20.R2")
V("c20-excluded-always", "C20", BO,
  "\tif _, ok := isSleepExcluded[cfg.name]; ok {\n\t\tb.excludedSleep += realSleep\n\t}\n\tif b.backoffSleepMS == nil {",
  "\tb.excludedSleep += realSleep\n\tif b.backoffSleepMS == nil {", "C20.R2")
V("c20-skip-checkkilled", "C20", BO, "\terr2 := b.CheckKilled()\n\tif err2 != nil {\n\t\treturn err2\n\t}\n", "", "C20.R2")
V("c20-exhausted-returns-arg", "C20", BO, "\t\t\treturnedErr = longestSleepCfg.err\n", "\t\t\t_ = longestSleepCfg.err\n", "C20.R3")
V("c20-longest-counts-excluded", "C20", BO, "if _, ok := isSleepExcluded[cfgName]; sleepTime > maxSleep && !ok {", "if sleepTime > maxSleep {", "C20.R3")
V("c20-fork-without-excluded", "C20", BO,
  "\t\tctx:            ctx,\n\t\tmaxSleep:       b.maxSleep,\n\t\ttotalSleep:     b.totalSleep,\n\t\texcludedSleep:  b.excludedSleep,\n",
  "\t\tctx:            ctx,\n\t\tmaxSleep:       b.maxSleep,\n\t\ttotalSleep:     b.totalSleep,\n", "C20.R4")
V("c20-merge-adds", "C20", BO, "\t\t\tb.totalSleep = forked.totalSleep\n", "\t\t\tb.totalSleep += forked.totalSleep\n", "C20.R4")
V("c20-merge-forgets-excluded", "C20", BO, "\t\t\tb.excludedSleep = forked.excludedSleep\n", "", "C20.R4")
V("c20-clone-shares-map", "C20", BO, "\t\tbackoffTimes:   copyMapWithoutRecursive(b.backoffTimes),\n\t\tparent:         b.parent,", "\t\tbackoffTimes:   b.backoffTimes,\n\t\tparent:         b.parent,", "C20.R4")
V("c20-no-clamp", "C20", BOC, "\t\tif maxSleepMs >= 0 && realSleep > maxSleepMs {\n\t\t\trealSleep = maxSleepMs\n\t\t}\n", "", "C20.R5")
V("c20-expo-no-cap", "C20", BOC, "return int(math.Min(float64(cap), float64(base)*math.Pow(2.0, float64(n))))", "return int(math.Max(float64(cap), float64(base)*math.Pow(2.0, float64(n))))", "C20.R5")
V("c20-n-rename", "C20", BO, "\trealSleep := f(b.ctx, maxSleepMs)\n\tif cfg.metric != nil {\n\t\t(*cfg.metric).Observe(float64(realSleep) / 1000)\n\t}\n\n\tb.totalSleep += realSleep\n",
  "\tslept := f(b.ctx, maxSleepMs)\n\trealSleep := slept\n\tif cfg.metric != nil {\n\t\t(*cfg.metric).Observe(float64(realSleep) / 1000)\n\t}\n\n\tb.totalSleep = b.totalSleep + slept\n", "none")

# ---------------------------------------------------------------- C10
RR = "internal/locate/region_request.go"
RS = "internal/locate/replica_selector.go"
V("c10-drop-retry-marker", "C10", RR, "\tif !req.IsRetryRequest && s.vars.sendTimes > 0 {\n\t\treq.IsRetryRequest = true\n\t}\n", "", "C10.R1")
V("c10-marker-only-after-region-error", "C10", RR,
  "\t\ts.vars.regionErr = nil\n\t}\n\n\ts.vars.rpcCtx, s.vars.resp = nil, nil\n\tif !req.IsRetryRequest && s.vars.sendTimes > 0 {\n\t\treq.IsRetryRequest = true\n\t}\n",
  "\t\ts.vars.regionErr = nil\n\t\treq.IsRetryRequest = true\n\t}\n\n\ts.vars.rpcCtx, s.vars.resp = nil, nil\n", "C10.R1")
V("c10-marker-threshold", "C10", RR, "if !req.IsRetryRequest && s.vars.sendTimes > 0 {", "if !req.IsRetryRequest && s.vars.sendTimes > 1 {", "C10.R1")
V("c10-sendtimes-reset", "C10", RR, "\t\ts.vars.regionErr = nil\n\t}\n\n\ts.vars.rpcCtx, s.vars.resp = nil, nil\n", "\t\ts.vars.regionErr = nil\n\t\ts.vars.sendTimes = 0\n\t}\n\n\ts.vars.rpcCtx, s.vars.resp = nil, nil\n", "C10.R1")
V("c10-validate-skipped-on-retry", "C10", RR, "\tif err = s.validateReadTS(bo.GetCtx(), req); err != nil {", "\tif err = s.validateReadTS(bo.GetCtx(), req); err != nil && !req.IsRetryRequest {", "C10.R2")
V("c10-validate-misses-scan", "C10", RR, "case tikvrpc.CmdGet, tikvrpc.CmdScan, tikvrpc.CmdBatchGet, tikvrpc.CmdCop,", "case tikvrpc.CmdGet, tikvrpc.CmdBatchGet, tikvrpc.CmdCop,", "C10.R2")
V("c10-replicaread-for-writes", "C10", RS, "if s.target != nil && s.busyThreshold > 0 && s.isReadOnlyReq && (", "if s.target != nil && s.busyThreshold > 0 && (", "C10.R3")
V("c10-mixed-replicaread-unguarded", "C10", RS, "req.ReplicaRead = s.isReadOnlyReq && s.target.peer.Id != s.region.GetLeaderPeerID()", "req.ReplicaRead = s.target.peer.Id != s.region.GetLeaderPeerID()", "C10.R3")
V("c10-isreadreq-includes-lock", "C10", RS, "\tcase tikvrpc.CmdGet, tikvrpc.CmdBatchGet, tikvrpc.CmdScan,\n\t\ttikvrpc.CmdCop,", "\tcase tikvrpc.CmdGet, tikvrpc.CmdBatchGet, tikvrpc.CmdScan, tikvrpc.CmdPessimisticLock,\n\t\ttikvrpc.CmdCop,", "C10.R3")
V("c10-attempts-reset-on-not-leader", "C10", RS, "\tif s.target != nil {\n\t\ts.target.addFlag(notLeaderFlag)\n\t}\n\tleader := notLeader.GetLeader()", "\tif s.target != nil {\n\t\ts.target.addFlag(notLeaderFlag)\n\t\ts.target.attempts = 0\n\t}\n\tleader := notLeader.GetLeader()", "C10.R4")
V("c10-attempt-not-counted-for-proxy-path", "C10", RR, "\trpcCtx.Addr = addr\n\ttargetReplica.attempts++\n", "\trpcCtx.Addr = addr\n\tif proxyReplica == nil {\n\t\ttargetReplica.attempts++\n\t}\n", "C10.R4")
V("c10-exhausted-gt", "C10", RR, "return r.attempts >= maxAttempt || (maxAttemptTime > 0 && r.attemptedTime >= maxAttemptTime)", "return r.attempts > maxAttempt+maxAttempt || (maxAttemptTime > 0 && r.attemptedTime >= maxAttemptTime)", "C10.R4")
V("c10-n-marker-refactor", "C10", RR, "\tif !req.IsRetryRequest && s.vars.sendTimes > 0 {\n\t\treq.IsRetryRequest = true\n\t}\n", "\tisRetry := s.vars.sendTimes > 0\n\tif isRetry {\n\t\treq.IsRetryRequest = true\n\t}\n", "none")

if __name__ == "__main__":
    out = os.path.join(os.path.dirname(os.path.abspath(__file__)), "variants.json")
    json.dump(VARS, open(out, "w"), indent=1)
    print(len(VARS), "variants ->", out)
